"""Shared explicit-state driver for desper.World (C01, C02, C05, C19).

The transition function is the real ``World`` method; the reference model
is a dict of dicts (entity -> type name -> component), a pending set and a
FIFO of postponed callback groups.  Oracle clauses are grouped in families:

    Q  queries agree with the table                      (C01, C05)
    P  process() completes / deferred deletion timing    (C05)
    L  lifecycle callbacks, registration, postponement   (C02)

A driver *owns* some families; clauses of the others are not evaluated,
and an exception that belongs to another family prunes the branch.
"""
import abc
import collections

from mc import env  # noqa: F401  (binds desper to the tree under test)
from mc.canon import canon
from mc.kernel import Pruned
from mc.report import Violation, Lookalike

import desper


# -- harness component / processor classes --------------------------------
class Plain:
    def __init__(self, label, log=None):
        self.label = label
        self.log = log

    def __repr__(self):
        return self.label

    def __hash__(self):
        # deterministic (labels are strings, PYTHONHASHSEED is fixed): the
        # iteration order of desper's listener sets must not depend on
        # object addresses, or replays of one history could differ
        return hash(self.label)


class Falsy:
    """Legal components may be falsy (empty containers, zero-like values):
    the library must test presence, never truth."""

    def __bool__(self):
        return False


class A(Plain):
    pass


class X(Falsy, Plain):
    pass


class N(Plain):
    pass


def _probe_queries(comp, entity, world, when):
    """Queries issued from inside a lifecycle callback must not fail."""
    sink = getattr(comp, 'sink', None)
    if sink is None:
        return
    try:
        for klass in (A, X, H):
            world.get(klass)
            world.has_component(entity, klass)
            world.get_component(entity, klass)
        world.get_components(entity)
        world.entity_exists(entity)
        world.entities
    except Exception as exc:
        sink.append((comp.label, when, entity, repr(exc)))
    known = getattr(comp, 'known', None)
    if known is None or comp.busy:
        return
    # "a listener exactly while attached", asked from inside a callback
    # about the components of the *other* entities (the one under
    # notification is in the middle of its operation)
    mine = list(comp.rows.get(entity, {}).values())
    try:
        for other in known:
            if other is comp or not events_of(other):
                continue
            if any(other is m for m in mine) or any(
                    other is m for m in comp.op_new):
                continue
            owners = [e for e, c in world.get(type(other)) if c is other]
            if entity in owners:
                continue
            if world.is_handler(other) != bool(owners):
                comp.listener_sink.append(
                    (comp.label, when, entity, other.label, owners,
                     world.is_handler(other)))
    except Exception as exc:
        sink.append((comp.label, when, entity, repr(exc)))


@desper.event_handler(on_add='h_added', on_remove='h_removed', ping='h_ping')
class H(Plain):
    """Handler component.  The callbacks are *mapped* names: methods that
    happen to be called on_add / on_remove exist too, but they are decoys -
    the library must go through the event mapping, never through the event
    name."""
    sink = None     # list collecting failures of queries made in callbacks
    known = None    # every component of the run (listener probe), or None
    busy = ()       # non-empty while a callback runs operations of its own
    rows = None     # the model's table as it was before the operation
    listener_sink = None
    op_new = ()     # components handed to the running operation

    def h_added(self, entity, world):
        self.log.append((self.label, 'on_add', entity, id(world)))
        _probe_queries(self, entity, world, 'on_add')

    def h_removed(self, entity, world):
        self.log.append((self.label, 'on_remove', entity, id(world)))
        _probe_queries(self, entity, world, 'on_remove')

    def h_ping(self, token):
        self.log.append((self.label, 'ping', token, None))

    def on_add(self, *args):
        self.log.append((self.label, 'DECOY on_add called by name', args,
                         None))

    def on_remove(self, *args):
        self.log.append((self.label, 'DECOY on_remove called by name', args,
                         None))


class HB(Falsy, H):
    pass


@desper.event_handler(bonus='h_bonus')
class HX(H):
    """Decorated subclass with an event of its own: decorating it must not
    add 'bonus' to the table of H or of H's other subclasses (they have no
    such method, registering them would fail)."""

    def h_bonus(self):
        self.log.append((self.label, 'bonus', None, None))


class HD(H):
    """on_remove asks for the (deferred) deletion of its own entity."""
    effects = None

    def h_removed(self, entity, world):
        super().h_removed(entity, world)
        existed = bool(world.get_components(entity))
        world.delete_entity(entity)
        self.effects.append((entity, existed))


class HZ(H):
    """on_remove disables dispatching (a callback may do that): whatever
    else the running operation still has to announce is postponed."""
    marks = None

    def h_removed(self, entity, world):
        super().h_removed(entity, world)
        if world.dispatch_enabled:
            world.dispatch_enabled = False
            self.marks.append(len(self.log))


class HR(H):
    """on_remove raises - once per instance (a callback that quits the loop
    or switches world does exactly that)."""
    raised = None

    def h_removed(self, entity, world):
        super().h_removed(entity, world)
        if not getattr(self, 'fired', False):
            self.fired = True
            self.raised.append((self.label, entity))
            raise Lookalike(f'{self.label}.on_remove({entity}) raises')


class HY(H):
    """on_add disables dispatching (a loading gate): whatever else the
    running operation still has to announce is postponed."""
    marks = None

    def h_added(self, entity, world):
        super().h_added(entity, world)
        if world.dispatch_enabled:
            world.dispatch_enabled = False
            self.marks.append(len(self.log))


class HKR(H):
    """on_remove deletes the *other* entity (1 <-> 2) immediately and gives
    its identifier to a fresh entity: callbacks may call back into the
    world while an operation is under way."""
    recreated = None
    maker = None

    def h_removed(self, entity, world):
        super().h_removed(entity, world)
        if entity not in (1, 2):
            return
        other = 3 - entity
        busy = self.busy if isinstance(self.busy, list) else []
        busy.append(1)
        try:
            if world.get_components(other):
                world.delete_entity(other, immediate=True)
            comp = self.maker('A')
            world.create_entity(comp, entity_id=other)
        finally:
            busy.pop()
        self.recreated.append((other, comp))


class HK(H):
    """on_remove takes the *other* entity (1 <-> 2) with it: deleted at
    once, from inside the callback - also when that entity owns a
    component of this very class (whose own on_remove then does nothing:
    the first one is still busy)."""
    killed = None

    def h_removed(self, entity, world):
        super().h_removed(entity, world)
        if entity not in (1, 2) or self.busy:
            return
        other = 3 - entity
        if not world.get_components(other):
            return
        busy = self.busy if isinstance(self.busy, list) else []
        busy.append(1)
        try:
            world.delete_entity(other, immediate=True)
        finally:
            busy.pop()
        self.killed.append(other)


class HS(H):
    """One-shot: on_add detaches its own component again."""
    gone = None

    def h_added(self, entity, world):
        super().h_added(entity, world)
        busy = self.busy if isinstance(self.busy, list) else []
        busy.append(1)
        try:
            removed = world.remove_component(entity, HS)
        finally:
            busy.pop()
        self.gone.append((entity, self, removed))


@desper.event_handler('ping')
class P(Falsy, Plain):
    """Listens to the probe event only: no lifecycle callbacks."""

    def ping(self, token):
        self.log.append((self.label, 'ping', token, None))


@desper.event_handler(on_add='attached')
class OA(Plain):
    """on_add only, under a mapped name."""

    def attached(self, entity, world):
        self.log.append((self.label, 'on_add', entity, id(world)))

    def on_add(self, *args):
        self.log.append((self.label, 'DECOY on_add called by name', args,
                         None))


class _Types(dict):
    """Component classes by name.  B(A) is defined lazily, the first time an
    operation needs it - i.e. after queries by A have already been answered
    (a memoised subclass walk must not go stale)."""

    def __missing__(self, name):
        if name == 'B':
            cls = type('B', (A,), {})
            self[name] = cls
            return cls
        raise KeyError(name)

    def defined(self, name):
        return dict.__contains__(self, name)


TYPES = _Types({c.__name__: c for c in (A, X, N, H, HB, HX, HD, HZ, HY, HR, HS, HK, HKR,
                                         P, OA)})


class VirtualBase(abc.ABC):
    """A (and with it the lazily defined B) is *registered* with this ABC:
    issubclass / isinstance say yes, the class tree says no.  Whether such
    a type matches is not stated - that every query gives the same answer
    is."""


VirtualBase.register(A)
# query types that match structurally (runtime-checkable protocol: every
# handler component is an instance) or virtually
STRUCTURAL = (VirtualBase, desper.EventHandler)


class RecProc(desper.Processor):
    label = 'R'

    def __init__(self, log):
        self.log = log

    def process(self, dt):
        self.log.append(('R', 'proc', dt, None))


class DelProc(desper.Processor):
    """Calls delete_entity(target) from inside its frame when armed."""
    label = 'D'
    priority = 1

    def __init__(self, log):
        self.log = log
        self.target = None

    def process(self, dt):
        self.log.append(('D', 'proc', dt, None))
        if self.target is not None:
            target, self.target = self.target, None
            self.world.delete_entity(target)


def events_of(comp):
    return getattr(comp, '__events__', {})


class Ctx:
    pass


class WorldDriver:
    """See module docstring.  All parameters are small finite alphabets."""

    def __init__(self, name, own, types=('A', 'B', 'X'), ids=(1, 2),
                 explicit_ids=(1, 2), max_autos=1,
                 shapes=((), ('A',), ('B',), ('A', 'X'), ('B', 'X')),
                 toggles=False, max_postponed=2, processors=False,
                 bogus_delete=False, coarse=True, clear_op=True,
                 delete_ops=True, process_op=True, stray_marks=False,
                 readd=False):
        self.name = name
        self.own = set(own)
        self.types = tuple(types)
        self.ids = tuple(ids)
        self.explicit_ids = tuple(explicit_ids)
        self.max_autos = max_autos
        self.shapes = tuple(tuple(s) for s in shapes)
        self.toggles = toggles
        self.max_postponed = max_postponed
        self.processors = processors
        self.bogus_delete = bogus_delete
        # stray_marks: deferred delete of an id of the alphabet that owns
        # nothing at the moment, and clear() while such a mark exists
        self.stray_marks = stray_marks
        # readd: a component the entity already owns is given again (the
        # very same instance), through add_component and create_entity
        self.readd = readd
        self.coarse = coarse
        self.clear_op = clear_op
        self.delete_ops = delete_ops
        self.process_op = process_op
        self.universe = tuple(sorted(set(self.ids) | set(self.explicit_ids)
                                     | set(range(1, max_autos + 3)),
                                     key=repr)) + (99,)

    def params(self):
        return dict(types=self.types, ids=self.ids,
                    explicit_ids=self.explicit_ids, max_autos=self.max_autos,
                    shapes=self.shapes, toggles=self.toggles,
                    max_postponed=self.max_postponed,
                    processors=self.processors, coarse_key=self.coarse,
                    bogus_delete=self.bogus_delete,
                    stray_marks=self.stray_marks,
                    readd_same_instance=self.readd,
                    families=sorted(self.own))

    # -- construction --------------------------------------------------
    def initial(self):
        ctx = Ctx()
        ctx.hits = collections.Counter()
        ctx.log = []
        if not getattr(type(self), '_probed', False):
            type(self)._probed = True     # once per process is enough
            self._isolation_probe()
        ctx.world = desper.World()
        ctx.rows = {}            # entity -> {type name: component}
        ctx.pending = set()
        ctx.ghost = set()        # pending marks whose row vanished (2 policies)
        ctx.bogus = set()        # deferred deletes of ids that never existed
        ctx.failed_frame = False
        ctx.autos = 0
        ctx.enabled = True
        ctx.postponed = []       # groups of (comp, event, entity)
        ctx.counter = 0
        ctx.comps = []           # every component ever created (kept alive)
        ctx.procs = {}
        ctx.callback_errors = []
        ctx.raised = []          # (label, entity) of callbacks that raised
        ctx.killed = []          # entities deleted at once by an HK callback
        ctx.listener_errors = []
        ctx.busy = []
        ctx.op_new = []          # components created by the running operation
        ctx.effects = []     # (entity, row existed) of in-callback deletes
        ctx.redisabled = []  # log positions at which a callback disabled
        ctx.selfremoved = []  # (entity, component, returned) of one-shots
        ctx.recreated = []    # (entity, fresh component) made by callbacks
        if self.processors:
            for klass in (RecProc, DelProc):
                proc = klass(ctx.log)
                ctx.world.add_processor(proc)
                ctx.procs[proc.label] = proc
        return ctx

    @staticmethod
    def _isolation_probe():
        """A fresh World inherits nothing from another, used, World."""
        used = desper.World()
        log = []
        try:
            e = used.create_entity(A('probe-a'), H('probe-h', log))
            used.add_processor(RecProc(log))
            used.delete_entity(e)
            used.dispatch_enabled = False
            used.create_entity(H('probe-h2', log))
        except Exception as exc:
            # (H is a base class with decorated subclasses of its own:
            # their tables must not leak into it)
            raise Violation('plain_operations_work',
                            f'creating entities with components A and H '
                            f'in a new World raised {exc!r}', isolation=True)
        del log[:]
        fresh = desper.World()
        problems = []
        if fresh.entities or fresh.get(A) or fresh.get(H):
            problems.append(f'entities {fresh.entities}, get(A) {fresh.get(A)}')
        if fresh.processors:
            problems.append(f'processors {fresh.processors}')
        if fresh.entity_exists(e) or fresh.get_components(e):
            problems.append('entity of the other world exists')
        if not fresh.dispatch_enabled:
            problems.append('dispatching is disabled')
        fresh.dispatch_enabled = True
        try:
            fresh.process(1)
        except Exception as exc:
            problems.append(f'process raised {exc!r}')
        if log:
            problems.append(f'callbacks {log}')
        if problems:
            raise Violation('fresh_world_is_independent',
                            'a World created while another one holds '
                            'entities, a pending deletion, a processor and '
                            'postponed callbacks is not empty: '
                            + '; '.join(problems), isolation=True)

    def new(self, ctx, type_name):
        ctx.counter += 1
        comp = TYPES[type_name](f'{type_name}{ctx.counter}', ctx.log)
        if isinstance(comp, H):
            comp.sink = ctx.callback_errors
            comp.raised = ctx.raised
            comp.killed = ctx.killed
            if not isinstance(comp.busy, list):
                comp.busy = ctx.busy
            if 'L' in self.own:
                comp.known = ctx.comps
                comp.busy = ctx.busy
                comp.rows = ctx.rows
                comp.listener_sink = ctx.listener_errors
                comp.op_new = ctx.op_new
            comp.effects = ctx.effects
            comp.marks = ctx.redisabled
            comp.gone = ctx.selfremoved
            comp.recreated = ctx.recreated
            comp.maker = lambda t, ctx=ctx: self.new(ctx, t)
        ctx.comps.append(comp)
        ctx.op_new.append(comp)
        return comp

    # -- alphabet ------------------------------------------------------
    def ops(self, ctx):
        if ctx.bogus:
            ops = [('process',)]
            if (self.stray_marks and self.clear_op
                    and (ctx.enabled or not self.toggles)):
                ops.append(('clear',))
            return ops
        if (self.toggles and not ctx.enabled
                and sum(len(g) for g in ctx.postponed) >= self.max_postponed):
            return [('enable',)]
        ops = []
        # at most one re-creating callback component at a time: two of them
        # would delete each other's entity while its deletion is under way
        killer = any('HKR' in row for row in ctx.rows.values())
        for shape in self.shapes:
            if killer and 'HKR' in shape:
                continue
            if ctx.autos < self.max_autos:
                ops.append(('create', shape, None))
            for eid in self.explicit_ids:
                ops.append(('create', shape, eid))
        for e in self.ids:
            for t in self.types:
                if killer and t == 'HKR':
                    continue
                ops.append(('add', e, t))
        for e in self.ids:
            for t in self.types:
                ops.append(('remove', e, t))
        if self.readd:
            for e in self.ids:
                for t in ctx.rows.get(e, {}):
                    ops.append(('readd', e, t, 'add'))
                    ops.append(('readd', e, t, 'create'))
        if self.delete_ops:
            for e in self.ids:
                if e in ctx.rows:
                    ops.append(('delete', e))
                    ops.append(('delete_now', e))
        if self.bogus_delete and not ctx.pending and not ctx.ghost:
            ops.append(('delete', 77))
            if self.stray_marks:
                ops.extend(('delete', e) for e in self.ids
                           if e not in ctx.rows)
        if self.process_op:
            ops.append(('process',))
        if self.processors:
            for e in self.ids:
                if e in ctx.rows and ctx.procs['D'].target is None:
                    ops.append(('arm', e))
        if self.clear_op and (ctx.enabled or not self.toggles):
            ops.append(('clear',))
        if self.toggles:
            ops.append(('disable',) if ctx.enabled else ('enable',))
        return ops

    # -- model helpers -------------------------------------------------
    @staticmethod
    def _attach(ctx, e, comp, events):
        name = type(comp).__name__
        row = ctx.rows.setdefault(e, {})
        old = row.get(name)
        if old is not None:
            ctx.hits['replace_same_type'] += 1
            events.append((old, 'on_remove', e))
        row[name] = comp
        events.append((comp, 'on_add', e))

    @staticmethod
    def _drop_row(ctx, e, events):
        row = ctx.rows.pop(e)
        for comp in row.values():
            events.append((comp, 'on_remove', e))
        if e in ctx.pending:
            ctx.pending.discard(e)
            return True
        return False

    def fail(self, family, clause, detail, **features):
        if family in self.own:
            raise Violation(clause, detail, **features)
        raise Pruned(f'{clause} (family {family}, not owned by {self.name})')

    # -- transition ----------------------------------------------------
    def apply(self, ctx, op):
        del ctx.raised[:]
        try:
            self._apply(ctx, op)
        except Violation as v:
            if not ctx.raised or 'Lookalike(' not in v.detail:
                raise
            # a lifecycle callback raised by design inside this operation:
            # the exception reaching the caller is what is expected
        if not ctx.raised:
            return
        ctx.hits['lifecycle_callback_raised'] += 1
        if op[0] == 'process':
            ctx.hits['frame_failed_by_raising_callback'] += 1
        # "a failed process() never leaves the world failing on every later
        # frame": the callback raises once; a stray mark may cost one more
        # frame (pinned KeyError) - the third one at the latest completes
        errors = []
        for _ in range(3):
            try:
                ctx.world.process(0.5)
            except Exception as exc:
                errors.append(repr(exc))
        if len(errors) == 3:
            raise Violation(
                'failed_frame_is_not_sticky',
                f'{op}: {ctx.raised[0][0]}.on_remove raised (once); the '
                f'next three process() calls all failed: {errors}',
                op=op[0])
        raise Pruned('a lifecycle callback raised: what the interrupted '
                     'operation leaves behind is not specified')

    def _apply(self, ctx, op):
        w = ctx.world
        kind = op[0]
        events = []
        log_start = len(ctx.log)
        was_enabled = ctx.enabled
        pending_before = bool(ctx.pending)
        del ctx.op_new[:]

        if kind == 'create':
            _, shape, eid = op
            comps = [self.new(ctx, t) for t in shape]
            # several components of one type in a single call become
            # attached one after the other: each earlier one is replaced
            if len({type(c) for c in comps}) < len(comps):
                ctx.hits['same_type_twice_in_one_create'] += 1
            try:
                rid = w.create_entity(*comps, entity_id=eid)
            except Exception as exc:
                self.fail('Q', 'op_raised', f'create_entity raised {exc!r}',
                          op='create')
            if eid is None:
                ctx.autos += 1
                if rid in ctx.rows:
                    self.fail('Q', 'auto_id_fresh',
                              f'create_entity() returned {rid!r}, which '
                              f'already owns {list(ctx.rows[rid].values())}',
                              op='create')
            elif rid != eid:
                self.fail('Q', 'explicit_id_honoured',
                          f'asked for {eid!r}, got {rid!r}', op='create')
            if comps and rid in ctx.rows:
                ctx.hits['create_on_existing_id'] += 1
            for comp in comps:
                self._attach(ctx, rid, comp, events)

        elif kind == 'add':
            _, e, t = op
            comp = self.new(ctx, t)
            if e in ctx.pending:
                ctx.hits['add_to_pending'] += 1
            try:
                w.add_component(e, comp)
            except Exception as exc:
                self.fail('Q', 'op_raised', f'add_component raised {exc!r}',
                          op='add')
            self._attach(ctx, e, comp, events)

        elif kind == 'remove':
            _, e, t = op
            klass = TYPES[t]
            row = ctx.rows.get(e, {})
            if t in row:
                candidates = [row[t]]
            else:
                candidates = [c for c in row.values() if isinstance(c, klass)]
                if candidates:
                    ctx.hits['remove_by_supertype'] += 1
            try:
                got = w.remove_component(e, klass)
            except Exception as exc:
                self.fail('Q', 'op_raised',
                          f'remove_component raised {exc!r}', op='remove')
            if not candidates:
                if got is not None:
                    self.fail('Q', 'remove_result',
                              f'nothing to remove, got {got!r}', op='remove')
            else:
                if not any(got is c for c in candidates):
                    self.fail('Q', 'remove_result',
                              f'expected one of {candidates}, got {got!r}',
                              op='remove', exact=t in row)
                del row[type(got).__name__]
                events.append((got, 'on_remove', e))
                if not row:
                    del ctx.rows[e]
                    if e in ctx.pending:
                        ctx.pending.discard(e)
                        ctx.ghost.add(e)
                        ctx.hits['pending_row_vanished'] += 1

        elif kind == 'readd':
            # the instance the entity owns is attached to it once more: it
            # is detached (on_remove) and attached again (on_add), and ends
            # up attached and listening
            _, e, t, how = op
            comp = ctx.rows[e][t]
            ctx.hits['readd_attached_instance'] += 1
            events.append((comp, 'on_remove', e))
            events.append((comp, 'on_add', e))
            try:
                if how == 'add':
                    w.add_component(e, comp)
                elif w.create_entity(comp, entity_id=e) != e:
                    self.fail('Q', 'create_returns_id',
                              f'create_entity(entity_id={e!r}) returned '
                              f'another id', op='readd')
            except Violation:
                raise
            except Exception as exc:
                self.fail('Q', 'op_raised', f'{op} raised {exc!r}',
                          op='readd')

        elif kind == 'delete':
            _, e = op
            if e in ctx.rows:
                if e in ctx.pending:
                    ctx.hits['delete_twice'] += 1
                ctx.pending.add(e)
            else:
                ctx.bogus.add(e)
            try:
                w.delete_entity(e)
            except Exception as exc:
                self.fail('Q', 'op_raised', f'delete_entity raised {exc!r}',
                          op='delete')

        elif kind == 'delete_now':
            _, e = op
            try:
                w.delete_entity(e, immediate=True)
            except Exception as exc:
                self.fail('Q', 'op_raised',
                          f'delete_entity(immediate) raised {exc!r}',
                          op='delete_now')
            if self._drop_row(ctx, e, events):
                ctx.ghost.add(e)
                ctx.hits['pending_row_vanished'] += 1

        elif kind == 'arm':
            ctx.procs['D'].target = op[1]

        elif kind == 'process':
            bogus = bool(ctx.bogus)
            had_ghost = bool(ctx.ghost)
            armed = ctx.procs['D'].target if 'D' in ctx.procs else None
            try:
                w.process(0.5)
            except Exception as exc:
                if bogus and isinstance(exc, KeyError):
                    # documented / pinned by the suite: the frame in which a
                    # never-existing id is collected may raise KeyError once
                    ctx.failed_frame = True
                    ctx.hits['bogus_delete_keyerror'] += 1
                    ctx.bogus.clear()
                    # marks are consumed in no particular order: an entity
                    # that was legitimately pending is either gone already
                    # or still pending - decided by observation
                    for e in sorted(ctx.pending, key=repr):
                        if not w.get_components(e):
                            self._drop_row(ctx, e, [])
                    ctx.ghost.clear()
                    del ctx.log[log_start:]
                    self._resolve_effects(ctx)
                    return
                self.fail('P', 'process_raised',
                          f'process() raised {exc!r}', op='process',
                          after_failed_frame=ctx.failed_frame,
                          vanished_row=had_ghost)
            ctx.bogus.clear()
            ctx.failed_frame = False
            if pending_before:
                ctx.hits['process_with_pending'] += 1
            for e in sorted(ctx.pending, key=repr):
                self._drop_row(ctx, e, events)
            ctx.pending.clear()
            ctx.ghost.clear()
            # callbacks of the collected entities ran before any processor
            self._apply_recreated(ctx, events)
            if armed is not None:
                # deletion requested during frame k: applied in frame k+1
                ctx.hits['delete_from_inside_frame'] += 1
                if armed in ctx.rows:
                    ctx.pending.add(armed)
                else:
                    ctx.bogus.add(armed)
            if self.processors:
                self._check_frame(ctx, log_start, events)

        elif kind == 'clear':
            try:
                w.clear()
            except Exception as exc:
                if ctx.killed:
                    # a callback deleted another entity in the middle of
                    # clear(): as for entities created meanwhile, what
                    # clear() does then is not specified, not explored
                    del ctx.killed[:]
                    raise Pruned('clear() while a callback deletes entities')
                self.fail('Q', 'op_raised', f'clear raised {exc!r}',
                          op='clear')
            if ctx.killed:
                del ctx.killed[:]
                raise Pruned('clear() while a callback deletes entities')
            if ctx.recreated:
                # a callback created an entity in the middle of clear():
                # whether it survives depends on the order in which clear()
                # walks the entities - not specified, not explored
                raise Pruned('clear() while a callback creates entities')
            if ctx.redisabled:
                # a callback disabled dispatching in the middle of clear():
                # this is clear()-while-disabled, whose documented loss of
                # pending events is outside the alphabet (DESIGN 3/C02)
                raise Pruned('clear() while a callback disabled dispatching')
            for e in list(ctx.rows):
                self._drop_row(ctx, e, events)
            ctx.pending.clear()
            ctx.ghost.clear()
            if ctx.bogus:
                # a cleared world awaits no deletion at all
                ctx.hits['clear_with_stray_mark'] += 1
                ctx.bogus.clear()
            ctx.autos = 0
            ctx.hits['clear'] += 1
            if self.processors:
                # the harness puts fresh processors back (part of the op)
                ctx.procs.clear()
                for klass in (RecProc, DelProc):
                    proc = klass(ctx.log)
                    w.add_processor(proc)
                    ctx.procs[proc.label] = proc

        elif kind == 'disable':
            w.dispatch_enabled = False
            ctx.enabled = False

        elif kind == 'enable':
            ctx.enabled = True
            try:
                w.dispatch_enabled = True
            except Exception as exc:
                self.fail('L', 'enable_raised',
                          f'dispatch_enabled = True raised {exc!r} with '
                          f'postponed {self._show(ctx.postponed)}',
                          op='enable')
        else:
            raise ValueError(op)

        if ctx.callback_errors:
            err = ctx.callback_errors[0]
            del ctx.callback_errors[:]
            raise Violation('queries_from_callbacks_do_not_fail',
                            f'{op}: a query issued from {err[0]}.{err[1]}'
                            f'(entity {err[2]}) raised {err[3]}',
                            callback=err[1], op=kind)
        if ctx.listener_errors:
            err = ctx.listener_errors[0]
            del ctx.listener_errors[:]
            raise Violation('registered_exactly_while_attached',
                            f'{op}: seen from {err[0]}.{err[1]}(entity '
                            f'{err[2]}): {err[3]} is attached to {err[4]}, '
                            f'is_handler = {err[5]}',
                            from_callback=True, stale=bool(err[5]))
        for e, comp, removed in ctx.selfremoved:
            # a one-shot component detached itself from inside its on_add
            ctx.hits['one_shot_removes_itself'] += 1
            if removed is not comp:
                self.fail('Q', 'remove_result',
                          f'{comp.label} removed itself from its on_add, '
                          f'remove_component returned {removed!r}',
                          op='remove', exact=True)
            row = ctx.rows.get(e, {})
            if row.get('HS') is comp:
                del row['HS']
                if not row:
                    del ctx.rows[e]
                    if e in ctx.pending:
                        ctx.pending.discard(e)
                        ctx.ghost.add(e)
            events.append((comp, 'on_remove', e))
        del ctx.selfremoved[:]
        self._apply_recreated(ctx, events)
        self._resolve_effects(ctx)

        if 'L' in self.own:
            self._ledger(ctx, op, events, log_start, was_enabled)
        else:
            del ctx.log[log_start:]

        # a pending mark whose row vanished and whose id is used again:
        # both policies (mark dropped / mark kept) are admissible - decide
        # by observation, once.
        for e in [g for g in ctx.ghost if g in ctx.rows]:
            ctx.ghost.discard(e)
            ctx.hits['ghost_id_reused'] += 1
            if not w.entity_exists(e):
                ctx.pending.add(e)

    def _apply_recreated(self, ctx, events):
        for other in ctx.killed:
            # a callback deleted entity `other` at once
            ctx.hits['callback_deletes_other_entity'] += 1
            if other in ctx.rows:
                if self._drop_row(ctx, other, events):
                    ctx.hits['callback_deletes_pending_entity'] += 1
            ctx.pending.discard(other)
            ctx.ghost.discard(other)
        del ctx.killed[:]
        for other, comp in ctx.recreated:
            # a callback deleted entity `other` at once and re-created it
            ctx.hits['callback_recreates_other_entity'] += 1
            if other in ctx.rows:
                if self._drop_row(ctx, other, events):
                    ctx.hits['callback_deletes_pending_entity'] += 1
            ctx.pending.discard(other)
            ctx.ghost.discard(other)
            self._attach(ctx, other, comp, events)
        del ctx.recreated[:]

    @staticmethod
    def _resolve_effects(ctx):
        for e, existed in ctx.effects:
            # delete_entity(e) called from an on_remove callback: the mark
            # stays if e still owns components after the operation; it went
            # away with the row if the row was dropped afterwards; asked for
            # an entity that no longer existed it is a stray mark
            ctx.hits['delete_from_on_remove'] += 1
            if e in ctx.rows:
                ctx.pending.add(e)
            elif not existed:
                ctx.bogus.add(e)
        del ctx.effects[:]

    # -- family P: ordering inside one frame -----------------------------
    def _check_frame(self, ctx, log_start, events):
        frame = ctx.log[log_start:]
        first_proc = next((i for i, r in enumerate(frame) if r[1] == 'proc'),
                          len(frame))
        late = [r for r in frame[first_proc:] if r[1] == 'on_remove']
        if late:
            self.fail('P', 'on_remove_before_processors',
                      f'on_remove {late} delivered after a processor ran',
                      op='process')
        procs = [r[0] for r in frame if r[1] == 'proc']
        want = [p for p in ('R', 'D') if p in ctx.procs]
        if procs != want:
            self.fail('P', 'processors_once_per_frame',
                      f'processors run {procs}, expected {want}', op='process')

    # -- family L: callbacks ----------------------------------------------
    @staticmethod
    def _show(groups):
        return [[(c.label, ev, e) for c, ev, e in g] for g in groups]

    def _ledger(self, ctx, op, events, log_start, was_enabled):
        wid = id(ctx.world)
        full = ctx.log[log_start:]
        cut = None
        if ctx.redisabled:
            # a callback disabled dispatching at this position of the log
            cut = sum(1 for r in full[:ctx.redisabled[0] - log_start]
                      if r[1] != 'proc')
            del ctx.redisabled[:]
            ctx.hits['callback_disables_dispatching'] += 1
        got = [r for r in full if r[1] != 'proc']
        del ctx.log[log_start:]
        want = [(c, ev, e) for c, ev, e in events if ev in events_of(c)]

        def key(x):
            return (x[0].label, x[1], x[2], wid)

        if cut is not None and got[cut:]:
            self.fail('L', 'nothing_called_while_disabled',
                      f'{op}: {[r[:3] for r in got[cut:]]} delivered after a '
                      f'callback had disabled dispatching', op=op[0],
                      disabled_by_callback=True)
        if op[0] == 'enable':
            # callbacks caused *by* released callbacks (a one-shot removing
            # itself in its postponed on_add) are delivered directly, in the
            # middle of the release: each exactly once, then set aside
            for x in want:
                k = key(x)
                if got.count(k) != 1:
                    self.fail('L', 'callbacks_exactly_once',
                              f'{op}: {k[:3]} delivered {got.count(k)} '
                              f'time(s) during the release', op='enable',
                              missing=[k[1]] if not got.count(k) else [],
                              extra=[k[1]] if got.count(k) > 1 else [])
                got.remove(k)
            groups = ctx.postponed
            ctx.postponed = []
            flat = [x for g in groups for x in g]
            if flat:
                ctx.hits['release_postponed'] += 1
            pos = 0
            exp_labels = self._show(groups)
            if cut is None and len(got) != len(flat):
                self.fail('L', 'postponed_delivered_once',
                          f'expected {exp_labels}, delivered '
                          f'{[r[:3] for r in got]}', op='enable',
                          lost=len(got) < len(flat))
            rest = []
            for g in groups:
                chunk = got[pos:pos + len(g)]
                pos += len(g)
                keys = sorted(key(x) for x in g)
                if len(chunk) == len(g):
                    ok = keys == sorted(chunk)
                else:       # the release stopped inside (or before) g
                    pool = list(keys)
                    ok = cut is not None
                    for r in chunk:
                        if r in pool:
                            pool.remove(r)
                        else:
                            ok = False
                    left = [x for x in g if key(x) in pool]
                    if left:
                        rest.append(left)
                if not ok:
                    self.fail('L', 'postponed_in_operation_order',
                              f'expected {exp_labels}, delivered '
                              f'{[r[:3] for r in got]}', op='enable')
            if cut is not None:
                ctx.postponed = rest
                ctx.enabled = False
            return
        if was_enabled:
            exp = sorted(key(x) for x in want)
            if cut is not None:
                pool = list(exp)
                for r in got:
                    if r in pool:
                        pool.remove(r)
                    else:
                        self.fail('L', 'callbacks_exactly_once',
                                  f'{op}: unexpected {r[:3]}', op=op[0],
                                  missing=[], extra=[r[1]])
                left = [x for x in want if key(x) in pool]
                if left:
                    ctx.postponed.append(left)
                    ctx.hits['postponed'] += 1
                ctx.enabled = False
            elif sorted(got) != exp:
                missing = [x[:3] for x in exp if x not in got]
                extra = [x[:3] for x in got if x not in exp]
                self.fail('L', 'callbacks_exactly_once',
                          f'{op}: missing {missing} unexpected {extra}',
                          op=op[0], missing=sorted({m[1] for m in missing}),
                          extra=sorted({m[1] for m in extra}))
        else:
            if got:
                self.fail('L', 'nothing_called_while_disabled',
                          f'{op}: delivered {[r[:3] for r in got]} while '
                          f'dispatching was disabled', op=op[0])
            if want:
                ctx.postponed.append(want)
                ctx.hits['postponed'] += 1

    # -- state invariant -----------------------------------------------
    def check(self, ctx):
        w = ctx.world
        obs = []
        rows = ctx.rows
        if 'Q' in self.own:
            sent = object()
            for t in self.types:
                if not TYPES.defined(t):
                    continue    # no instance can exist yet
                klass = TYPES[t]
                try:
                    got = w.get(klass)
                except Exception as exc:
                    raise Violation('get_raised', f'get({t}) raised {exc!r}')
                want = [(e, c) for e, row in rows.items()
                        for c in row.values() if isinstance(c, klass)]
                gk = sorted((repr(e), c.label) for e, c in got)
                wk = sorted((repr(e), c.label) for e, c in want)
                if gk != wk:
                    raise Violation(
                        'get_matches_attached',
                        f'get({t}) = {gk}, attached = {wk}',
                        missing=len(set(wk) - set(gk)) > 0,
                        duplicated=len(gk) != len(set(gk)),
                        stale=len(set(gk) - set(wk)) > 0)
                obs.append(tuple(gk))
            for e in self.universe:
                row = rows.get(e, {})
                got = w.get_components(e)
                if (sorted(c.label for c in got)
                        != sorted(c.label for c in row.values())):
                    raise Violation('get_components',
                                    f'get_components({e}) = {list(got)}, '
                                    f'attached = {list(row.values())}')
                for t in self.types:
                    if not TYPES.defined(t):
                        continue
                    klass = TYPES[t]
                    cands = [c for c in row.values() if isinstance(c, klass)]
                    has = w.has_component(e, klass)
                    if has != bool(cands):
                        raise Violation('has_component',
                                        f'has_component({e}, {t}) = {has}, '
                                        f'attached = {list(row.values())}')
                    one = w.get_component(e, klass, sent)
                    if t in row:
                        ok = one is row[t]
                    elif cands:
                        ok = any(one is c for c in cands)
                    else:
                        ok = one is sent
                    if not ok:
                        raise Violation(
                            'get_component',
                            f'get_component({e}, {t}) = '
                            f'{"<default>" if one is sent else one!r}, '
                            f'attached = {list(row.values())}',
                            exact=t in row)
                exists = w.entity_exists(e)
                want_exists = e in rows and e not in ctx.pending
                if exists != want_exists:
                    raise Violation('entity_exists',
                                    f'entity_exists({e}) = {exists}, owns '
                                    f'{list(row.values())}, pending = '
                                    f'{e in ctx.pending}',
                                    pending=e in ctx.pending)
                obs.append((e, exists))
            for klass in STRUCTURAL:
                try:
                    pairs = list(w.get(klass))
                except Exception as exc:
                    raise Violation('get_raised',
                                    f'get({klass.__name__}) raised {exc!r}')
                for e in self.universe:
                    listed = [c for e2, c in pairs if e2 == e]
                    has = w.has_component(e, klass)
                    one = w.get_component(e, klass, sent)
                    if (has != bool(listed) or (one is not sent) != has
                            or (one is not sent
                                and not any(one is c for c in listed))):
                        raise Violation(
                            'queries_agree',
                            f'query type {klass.__name__} (matches only '
                            f'through isinstance), entity {e}: get() lists '
                            f'{listed}, has_component = {has}, '
                            f'get_component = '
                            f'{"<default>" if one is sent else one!r}',
                            structural=True)
            ents = list(w.entities)
            want_ents = [e for e in rows if e not in ctx.pending]
            if sorted(map(repr, ents)) != sorted(map(repr, want_ents)):
                raise Violation('entities',
                                f'entities = {ents}, expected {want_ents}')
        if 'L' in self.own:
            attached = {id(c) for row in rows.values() for c in row.values()}
            for comp in ctx.comps:
                if not events_of(comp):
                    continue
                is_h = w.is_handler(comp)
                if is_h != (id(comp) in attached):
                    raise Violation(
                        'registered_exactly_while_attached',
                        f'is_handler({comp.label}) = {is_h}, attached = '
                        f'{id(comp) in attached}',
                        kind=type(comp).__name__, stale=is_h)
            if ctx.enabled:
                mark = len(ctx.log)
                try:
                    w.dispatch('ping', 'probe')
                except Exception as exc:
                    raise Violation('probe_raised',
                                    f'dispatch(ping) raised {exc!r}')
                got = sorted(r[0] for r in ctx.log[mark:])
                del ctx.log[mark:]
                want = sorted(c.label for row in rows.values()
                              for c in row.values() if 'ping' in events_of(c))
                if got != want:
                    raise Violation('probe_reaches_attached_listeners',
                                    f'ping reached {got}, attached '
                                    f'listeners {want}')
                obs.append(tuple(want))
        return tuple(obs)

    # -- canonical key ---------------------------------------------------
    def key(self, ctx):
        names = {}
        for e, row in ctx.rows.items():
            for t, comp in row.items():
                names[id(comp)] = f'{e}.{t}'
        nxt = collections.Counter()
        post = []
        for group in ctx.postponed:
            g = []
            for comp, ev, e in sorted(
                    group, key=lambda x: (x[1], type(x[0]).__name__,
                                          repr(x[2]))):
                if id(comp) not in names:
                    k = type(comp).__name__
                    nxt[k] += 1
                    names[id(comp)] = f'~{k}#{nxt[k]}'
                g.append((names[id(comp)], ev, e))
            post.append(tuple(g))
        for proc in ctx.procs.values():
            names[id(proc)] = f'proc{proc.label}'

        def namer(o):
            n = names.get(id(o))
            if n is not None:
                return n
            if isinstance(o, Plain):
                return '~?' + o.label
            return None

        impl = canon((ctx.world,), namer, coarse=self.coarse)
        target = ctx.procs['D'].target if 'D' in ctx.procs else None
        return (impl, tuple(sorted(ctx.pending, key=repr)),
                tuple(sorted(ctx.ghost, key=repr)),
                tuple(sorted(ctx.bogus, key=repr)), ctx.failed_frame,
                ctx.autos, ctx.enabled, tuple(post), target)
