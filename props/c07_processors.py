"""C07 - processors run once per frame in priority order, one per type."""
import bisect as std_bisect
import collections
import itertools

from mc import env  # noqa: F401
from mc import kernel
from mc.canon import canon
from mc.report import Violation, Lookalike

import desper
import desper.bisect as dbisect

RULE = ('E1 breadth-first search to fixpoint over add_processor (fresh or '
        'already added instance; priority None/-1/0/1/5) / remove_processor / '
        'process(dt) on the real World with 4 processor classes (default 0, '
        'class priority 5, a subclass, an event handler); stable-sort list '
        'model; call ledger per frame.  E3 for desper.bisect: every sorted '
        'list of length <= N over 4 values x every probe x lo/hi windows, with '
        'and without key, against the standard library.  Non-trivial = '
        'replacement, priority tie, explicit 0 / negative priority, removal '
        'by supertype, re-adding an attached instance.')

PRIOS = (None, -1, 0, 1, 5)


class Base(desper.Processor):
    def __init__(self, label, log):
        self.label = label
        self.log = log

    def process(self, dt):
        self.log.append((self.label, 'process', dt))

    def __repr__(self):
        return self.label

    # processors may define value equality (compared by period, name ...):
    # all harness processors are equal to each other - the world is about
    # processor *objects*
    def __eq__(self, other):
        return isinstance(other, Base)

    def __hash__(self):
        # deterministic (labels are strings, PYTHONHASHSEED is fixed): the
        # iteration order of desper's listener sets must not depend on
        # object addresses, or replays of one history could differ
        return hash(self.label)


class P1(Base):
    pass


class P2(Base):
    priority = 5


class P3(P1):
    def __bool__(self):     # a legal processor may be falsy
        return False


@desper.event_handler(on_add='attached', on_remove='detached')
class PH(Base):
    """Handler processor; callbacks under *mapped* names, with decoys named
    after the events (the library must go through the mapping)."""

    def __len__(self):      # a legal handler processor may be falsy
        return 0

    def attached(self):
        self.log.append((self.label, 'on_add', self.world))
        self._look()

    def detached(self):
        self.log.append((self.label, 'on_remove', self.world))
        self._look()

    def _look(self):
        # a callback may read the world while the operation is under way
        # (whatever it sees then is not judged, only that reading is safe
        # and leaves nothing stale behind)
        w = self.world
        if w is not None:
            list(w.processors)
            for klass in CLASSES.values():
                w.get_processor(klass)

    def on_add(self, *args):
        self.log.append((self.label, 'DECOY on_add called by name', None))

    def on_remove(self, *args):
        self.log.append((self.label, 'DECOY on_remove called by name', None))


@desper.event_handler(on_remove='detached')
class PR(Base):
    """Handler processor whose on_remove raises, once per instance (Quit /
    SwitchWorld raised from a callback do exactly that)."""
    priority = 1
    raised = None

    def detached(self):
        self.log.append((self.label, 'on_remove', self.world))
        if not getattr(self, 'fired', False):
            self.fired = True
            self.raised.append(self.label)
            raise Lookalike(f'{self.label}.on_remove raises')


class PS(Base):
    """One-shot: removes itself from inside its own process()."""
    priority = 1

    def process(self, dt):
        self.log.append((self.label, 'process', dt))
        self.gone.append(self)
        self.world.remove_processor(type(self))


CLASSES = {c.__name__: c for c in (P1, P2, P3, PH, PS, PR)}


def events_of(obj):
    return getattr(obj, '__events__', {})


class Ctx:
    pass


class ProcDriver:
    name = 'processors'

    def __init__(self, classes=('P1', 'P2', 'P3', 'PH', 'PS'), prios=PRIOS,
                 dts=(0, 0.5), toggles=True, max_postponed=3):
        self.toggles = toggles
        self.max_postponed = max_postponed
        self.classes = classes
        self.prios = prios
        self.dts = dts

    def params(self):
        return dict(classes=self.classes, priorities=self.prios, dts=self.dts,
                    dispatch_toggles=self.toggles,
                    max_postponed=self.max_postponed)

    def initial(self):
        ctx = Ctx()
        ctx.hits = collections.Counter()
        ctx.log = []
        used = desper.World()
        used.add_processor(P1('probe', ctx.log), 3)
        fresh = desper.World()
        fresh.process(1)
        if fresh.processors or ctx.log or P1.priority != 0:
            raise Violation('fresh_world_is_independent',
                            f'processors {fresh.processors}, calls {ctx.log}, '
                            f'class priority {P1.priority}', isolation=True)
        ctx.world = desper.World()
        ctx.order = []      # model: [(instance, priority, seq)]
        ctx.seq = 0
        ctx.counter = 0
        ctx.keep = []
        ctx.enabled = True
        ctx.postponed = []
        ctx.selfremoved = []
        ctx.raised = []
        return ctx

    def ops(self, ctx):
        if not ctx.enabled and len(ctx.postponed) >= self.max_postponed:
            return [('enable',)]
        ops = []
        if self.toggles:
            ops.append(('disable',) if ctx.enabled else ('enable',))
        for c in self.classes:
            for p in self.prios:
                ops.append(('add', c, p, True))
        for inst, _, _ in ctx.order:
            for p in self.prios:
                ops.append(('add', type(inst).__name__, p, False))
        for c in self.classes:
            ops.append(('remove', c))
        for dt in self.dts:
            ops.append(('process', dt))
        return ops

    def apply(self, ctx, op):
        del ctx.raised[:]
        try:
            self._apply(ctx, op)
        except Violation as v:
            if not ctx.raised or 'Lookalike(' not in v.detail:
                raise
        if not ctx.raised:
            return
        # an on_remove callback raised inside the operation.  What the
        # operation leaves behind is not specified - but whatever it is, the
        # world tells one story about it: what `processors` lists is what
        # get_processor finds and what process() calls, once, in that order
        ctx.hits['processor_callback_raised'] += 1
        w = ctx.world
        listed = list(w.processors)
        for cname, klass in CLASSES.items():
            one = w.get_processor(klass)
            match = [p for p in listed if isinstance(p, klass)]
            if (one is None) != (not match) or (
                    match and not any(one is m for m in match)):
                raise Violation(
                    'processor_tables_agree',
                    f'{op}: {ctx.raised[0]}.on_remove raised; afterwards '
                    f'processors = {listed} but get_processor({cname}) = '
                    f'{one!r}', after_raising_callback=True)
        mark = len(ctx.log)
        try:
            w.process(0.5)
        except Exception as exc:
            raise Violation('op_raised', f'process raised {exc!r} after '
                            f'{ctx.raised[0]}.on_remove had raised in {op}',
                            op='process')
        got = [r for r in ctx.log[mark:] if r[1] == 'process']
        del ctx.log[mark:]
        if got != [(p.label, 'process', 0.5) for p in listed]:
            raise Violation(
                'processor_tables_agree',
                f'{op}: {ctx.raised[0]}.on_remove raised; afterwards '
                f'processors = {listed} but process() called {got}',
                after_raising_callback=True)
        raise kernel.Pruned('an on_remove callback raised: what the '
                            'interrupted operation leaves behind is not '
                            'specified')

    def _apply(self, ctx, op):
        w = ctx.world
        mark = len(ctx.log)
        if op[0] == 'add':
            _, cname, prio, fresh = op
            klass = CLASSES[cname]
            old = next((x for x in ctx.order if type(x[0]) is klass), None)
            if fresh:
                ctx.counter += 1
                inst = klass(f'{cname}#{ctx.counter}', ctx.log)
                inst.gone = ctx.selfremoved
                inst.raised = ctx.raised
                ctx.keep.append(inst)
            else:
                inst = old[0]
                ctx.hits['readd_attached_instance'] += 1
            expect = []
            if old is not None:
                ctx.order.remove(old)
                ctx.hits['replace_same_type'] += 1
                if 'on_remove' in events_of(old[0]):
                    expect.append((old[0].label, 'on_remove', w))
            try:
                w.add_processor(inst, prio)
            except Exception as exc:
                raise Violation('op_raised', f'add_processor raised {exc!r}',
                                op='add')
            eff = prio if prio is not None else inst.priority
            if prio is not None and prio <= 0:
                ctx.hits['explicit_zero_or_negative'] += 1
                if inst.priority != prio:
                    raise Violation(
                        'explicit_priority_wins',
                        f'add_processor({cname}, priority={prio}) left '
                        f'priority {inst.priority}', priority=prio)
            if any(p == eff for _, p, _ in ctx.order):
                ctx.hits['priority_tie'] += 1
            ctx.seq += 1
            ctx.order.append((inst, eff, ctx.seq))
            ctx.order.sort(key=lambda x: x[1])      # stable: ties by add time
            if 'on_add' in events_of(inst):
                expect.append((inst.label, 'on_add', w))
            if inst.world is not w:
                raise Violation('processor_knows_world',
                                f'{inst}.world is {inst.world!r}')
            self._callbacks(ctx, op, mark, expect, 'add_callbacks',
                            replaced=old is not None)
        elif op[0] == 'remove':
            _, cname = op
            klass = CLASSES[cname]
            exact = [x for x in ctx.order if type(x[0]) is klass]
            match = exact or [x for x in ctx.order if isinstance(x[0], klass)]
            if match and not exact:
                ctx.hits['remove_by_supertype'] += 1
            try:
                got = w.remove_processor(klass)
            except Exception as exc:
                raise Violation('op_raised',
                                f'remove_processor raised {exc!r}',
                                op='remove')
            if not match:
                if got is not None:
                    raise Violation('remove_result',
                                    f'nothing to remove, got {got!r}')
                expect = []
            else:
                hit = [x for x in match if x[0] is got]
                if not hit:
                    raise Violation('remove_result',
                                    f'remove_processor({cname}) returned '
                                    f'{got!r}, candidates '
                                    f'{[x[0] for x in match]}',
                                    exact=bool(exact))
                ctx.order.remove(hit[0])
                expect = ([(got.label, 'on_remove', w)]
                          if 'on_remove' in events_of(got) else [])
            self._callbacks(ctx, op, mark, expect, 'remove_callbacks')
        elif op[0] == 'disable':
            w.dispatch_enabled = False
            ctx.enabled = False
        elif op[0] == 'enable':
            ctx.enabled = True
            try:
                w.dispatch_enabled = True
            except Exception as exc:
                raise Violation('enable_raised', f'{exc!r}')
            got = ctx.log[mark:]
            if got != ctx.postponed:
                raise Violation('postponed_processor_callbacks',
                                f'postponed {ctx.postponed}, delivered {got}',
                                lost=len(got) < len(ctx.postponed))
            if ctx.postponed:
                ctx.hits['postponed_processor_callback_released'] += 1
            ctx.postponed = []
        elif op[0] == 'process':
            dt = op[1]
            try:
                w.process(dt)
            except Exception as exc:
                raise Violation('op_raised', f'process raised {exc!r}',
                                op='process')
            got = ctx.log[mark:]
            expect = [(x[0].label, 'process', dt) for x in ctx.order]
            for inst in ctx.selfremoved:
                # a processor that removed itself during the frame: every
                # processor of the frame was still called exactly once
                ctx.hits['processor_removes_itself_in_frame'] += 1
                ctx.order = [x for x in ctx.order if x[0] is not inst]
            del ctx.selfremoved[:]
            if got != expect:
                raise Violation(
                    'process_once_in_priority_order',
                    f'process({dt}) called {got}, expected {expect}',
                    same_set=sorted(map(repr, got)) == sorted(map(repr,
                                                                  expect)),
                    duplicates=len(got) != len(set(got)))
        del ctx.log[mark:]

    def _callbacks(self, ctx, op, mark, expect, clause, **features):
        got = ctx.log[mark:]
        if ctx.enabled:
            if got != expect:
                raise Violation(clause, f'{op}: callbacks {got}, expected '
                                f'{expect}', disabled=False, **features)
        else:
            if got:
                raise Violation(clause, f'{op}: {got} delivered while '
                                f'dispatching is disabled', disabled=True,
                                **features)
            ctx.postponed.extend(expect)

    def check(self, ctx):
        w = ctx.world
        got = list(w.processors)
        want = [x[0] for x in ctx.order]
        if len(got) != len(want) or any(a is not b for a, b in zip(got, want)):
            raise Violation('processors_order',
                            f'processors = {got}, expected {want} '
                            f'(priorities {[x[1] for x in ctx.order]})',
                            same_set=sorted(map(id, got)) == sorted(map(id,
                                                                        want)))
        if any(got[i].priority > got[i + 1].priority
               for i in range(len(got) - 1)):
            raise Violation('processors_non_decreasing', f'{got}')
        types = [type(p) for p in got]
        if len(types) != len(set(types)):
            raise Violation('one_per_exact_type', f'{got}')
        obs = []
        for cname, klass in CLASSES.items():
            one = w.get_processor(klass)
            exact = [p for p in want if type(p) is klass]
            match = exact or [p for p in want if isinstance(p, klass)]
            if (one is None) != (not match) or (
                    match and not any(one is m for m in match)):
                raise Violation('get_processor',
                                f'get_processor({cname}) = {one!r}, attached '
                                f'{want}', exact=bool(exact))
            obs.append(None if one is None else type(one).__name__)
        for inst in ctx.keep:
            if events_of(inst):
                if w.is_handler(inst) != any(inst is p for p in want):
                    raise Violation('handler_registered_while_added',
                                    f'is_handler({inst}) = '
                                    f'{w.is_handler(inst)}')
        return tuple(obs) + tuple((type(x[0]).__name__, x[1])
                                  for x in ctx.order)

    def key(self, ctx):
        names = {id(x[0]): f'{type(x[0]).__name__}@{i}'
                 for i, x in enumerate(ctx.order)}

        def namer(o):
            n = names.get(id(o))
            if n:
                return (n, o.priority)
            if isinstance(o, Base):
                return '~' + o.label
            return None
        pend = tuple((names.get(id(next((k for k in ctx.keep
                                             if k.label == lab), None)),
                                '~detached'), ev)
                     for lab, ev, _ in ctx.postponed)
        return (canon((ctx.world,), namer), ctx.enabled, pend,
                tuple((type(x[0]).__name__, x[1]) for x in ctx.order))


# -- bisect (E3) ----------------------------------------------------------
def run_bisect(case):
    length, values = case
    calls = 0
    hits = {}
    for lst in itertools.combinations_with_replacement(range(values), length):
        lst = list(lst)
        if len(set(lst)) < len(lst):
            hits['duplicates_in_list'] = 1
        for x in range(-1, values + 1):
            windows = [(0, None)] + [(lo, hi) for lo in range(length + 1)
                                     for hi in range(lo, length + 1)]
            for lo, hi in windows:
                for fname in ('bisect_right', 'bisect_left', 'bisect'):
                    std = getattr(std_bisect, fname)
                    mine = getattr(dbisect, fname)
                    want = std(lst, x, lo, hi)
                    got = mine(lst, x, lo, hi)
                    calls += 1
                    if got != want:
                        raise Violation('bisect', f'{fname}({lst}, {x}, {lo}, '
                                        f'{hi}) = {got}, stdlib {want}',
                                        function=fname, keyed=False)
                    pairs = [(v, object()) for v in lst]
                    got = mine(pairs, x, lo, hi, key=lambda p: p[0])
                    calls += 1
                    if got != want:
                        raise Violation('bisect', f'{fname}({lst}, {x}, {lo}, '
                                        f'{hi}, key) = {got}, stdlib {want}',
                                        function=fname, keyed=True)
            for fname in ('insort_right', 'insort_left', 'insort'):
                a, b = list(lst), list(lst)
                getattr(std_bisect, fname)(a, x)
                getattr(dbisect, fname)(b, x)
                calls += 1
                if a != b:
                    raise Violation('insort', f'{fname}({lst}, {x}) -> {b}, '
                                    f'stdlib {a}', function=fname, keyed=False)
                # keyed: the inserted item is a tagged pair; position matters
                pairs = [(v, i) for i, v in enumerate(lst)]
                pa, pb = list(pairs), list(pairs)
                getattr(std_bisect, fname)(pa, (x, 'new'), key=lambda p: p[0])
                getattr(dbisect, fname)(pb, (x, 'new'), key=lambda p: p[0])
                calls += 1
                if pa != pb:
                    raise Violation('insort', f'{fname}({pairs}, ({x}, new), '
                                    f'key) -> {pb}, stdlib {pa}',
                                    function=fname, keyed=True)
                if x in lst:
                    hits['insort_among_equal'] = 1
    return {'calls': calls, 'hits': hits, 'key': repr(case)}


def drivers(tier):
    if tier == 'quick':
        return {'processors': (ProcDriver(classes=('P1', 'P2', 'P3', 'PH', 'PS'),
                                          prios=(None, 0, 5),
                                          max_postponed=2, dts=(0.5,)),
                               dict(max_states=300000, time_budget=300)),
                # a handler processor whose on_remove raises
                'raising-callback': (ProcDriver(
                    classes=('P1', 'P3', 'PH', 'PR'), prios=(None, 0),
                    max_postponed=2, dts=(0.5,)),
                    dict(max_states=300000, time_budget=300))}
    return {'processors': (ProcDriver(), dict(max_states=2000000,
                                              time_budget=3000)),
            'raising-callback': (ProcDriver(
                classes=('P1', 'P2', 'P3', 'PH', 'PR'), prios=(None, 0, 5),
                max_postponed=2), dict(max_states=2000000,
                                       time_budget=3000))}


def run(tier, rep):
    rep.rule = RULE
    rep.assumptions += [
        'an explicit priority is stored on the instance (documented: "a class '
        'or instance level priority"), so re-adding that instance without a '
        'priority keeps it',
        'a processor may remove itself from inside its own process(); other '
        'additions / removals from inside a frame are outside the alphabet',
    ]
    rep.require_hits(replace_same_type=1, priority_tie=1,
                     explicit_zero_or_negative=1, remove_by_supertype=1,
                     readd_attached_instance=1, insort_among_equal=1,
                     postponed_processor_callback_released=1,
                     processor_removes_itself_in_frame=1,
                     processor_callback_raised=1)
    for name, (driver, kw) in drivers(tier).items():
        kernel.explore(driver, rep, part=name, params=driver.params(), **kw)
    n = 5 if tier == 'quick' else 6
    kernel.enumerate_cases(run_bisect, [(length, 4) for length in range(n + 1)],
                           rep, 'bisect', chunk=1,
                           params=dict(max_length=n, values=4))


def replay(rec):
    if rec['part'] == 'bisect':
        try:
            run_bisect(kernel.totuple(rec['case']))
        except Violation as v:
            return v
        return None
    for tier in ('thorough', 'quick'):
        ds = drivers(tier)
        if rec['part'] in ds:
            return kernel.replay_case(ds[rec['part']][0], rec['case'])
    raise SystemExit(f'unknown part {rec["part"]}')
